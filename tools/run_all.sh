#!/bin/sh
# runs every claimed check of one tier on the current tree, three at a time; prints one line per check
# usage: tools/run_all.sh [quick|thorough]
HERE="$(cd "$(dirname "$0")/.." && pwd)"
TIER="${1:-quick}"
OUT="${RUN_ALL_OUT:-/tmp/w/runall}"
mkdir -p "$OUT"
cd "$HERE" || exit 3
IDS=$(jq -r '.checks[].property_id' MANIFEST.json)
echo $IDS | tr ' ' '\n' | xargs -P 3 -I{} sh -c "bin/check {} --tier $TIER > $OUT/{}.$TIER.log 2>&1; echo \"{} exit=\$? \$(tail -n 1 $OUT/{}.$TIER.log | cut -c1-200)\""
