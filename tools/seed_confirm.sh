#!/bin/sh
# usage: seed_confirm.sh <name>   confirms a seeded change in a scratch worktree: demo fails with it / passes without, suite still passes
name=$1
src=${SEED_OUT:-/tmp/seed/out}/$name
wt=/tmp/w/sc_$name
git -C /repo worktree add -q --detach $wt HEAD || exit 9
cd $wt
if ! git apply $src/patch.diff 2>/tmp/w/apply_$name.err; then echo "$name APPLY-FAILED $(head -c 200 /tmp/w/apply_$name.err)"; cd /; git -C /repo worktree remove --force $wt; exit 0; fi
/venv/bin/python $src/demo.py >/tmp/w/demo_with_$name.out 2>&1; with=$?
suite=$(timeout 900 /venv/bin/python -m pytest -q -p no:cacheprovider --timeout=900 2>&1 | grep -E "passed|failed" | tail -1)
git checkout -q -- . 
/venv/bin/python $src/demo.py >/tmp/w/demo_without_$name.out 2>&1; without=$?
cd /; git -C /repo worktree remove --force $wt
echo "$name demo_with_patch_exit=$with demo_without_patch_exit=$without suite_with_patch=[$suite]"
