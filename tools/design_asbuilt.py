#!/usr/bin/env python3
"""Regenerates the generated blocks of DESIGN.md (status, per-property 'As built', findings table, seeded-change
matrix) from MANIFEST.json, known_findings.json, evidence/*.json and seeded/*/meta.json.  Hand-written text outside
the <!-- BEGIN:x --> ... <!-- END:x --> markers is never touched.   usage: .venv/bin/python tools/design_asbuilt.py"""
import glob
import json
import os
import re

HERE = os.path.dirname(os.path.dirname(os.path.abspath(__file__)))


def load(p):
    with open(os.path.join(HERE, p)) as f:
        return json.load(f)


def block(text, name, body):
    b, e = f"<!-- BEGIN:{name} -->", f"<!-- END:{name} -->"
    if b not in text:
        raise SystemExit(f"marker {name} missing in DESIGN.md")
    i, j = text.index(b) + len(b), text.index(e)
    return text[:i] + "\n" + body.rstrip() + "\n" + text[j:]


def main():
    man = load("MANIFEST.json")
    kf = load("known_findings.json")
    ev = {}
    for f in glob.glob(os.path.join(HERE, "evidence", "C*.json")):
        e = json.load(open(f))
        ev[e["property_id"]] = e
    text = open(os.path.join(HERE, "DESIGN.md")).read()
    with open(os.path.join(HERE, "tools", "design_status.md")) as f:
        text = block(text, "STATUS", f.read())
    # summary table
    rows = ["| Id | Claimed | Level | Obligations (quick) | Functions under contract | Known-finding instances | Bounded / run-time parts | Quick wall time |",
            "|---|---|---|---|---|---|---|---|"]
    checks = {c["property_id"]: c for c in man["checks"]}
    na = {n["property_id"]: n["reason"] for n in man["not_applicable"]}
    for i in range(1, 21):
        pid = f"C{i:02d}"
        if pid in checks:
            e = ev.get(pid)
            if e:
                c = e["coverage"]
                k = c.get("known_finding_instances")
                kn = ", ".join(sorted(k)) if isinstance(k, dict) and k else ("-" if not k else str(k))
                bd = "; ".join(c.get("bounded_stand_ins") or []) or "-"
                rows.append(f"| {pid} | yes | {checks[pid]['level_claimed']['category']} | {c['discharged']}/{c['obligations']} discharged | {len(c['functions_under_contract'])} | {kn} | {bd[:160]} | {e['wall_s']:.0f} s |")
            else:
                rows.append(f"| {pid} | yes | {checks[pid]['level_claimed']['category']} | (no evidence yet) | | | | |")
        else:
            rows.append(f"| {pid} | **no** | not applicable | - | - | - | {na.get(pid, '')[:200]} | - |")
    text = block(text, "SUMMARY", "\n".join(rows))
    # as built per property
    for pid, c in checks.items():
        e = ev.get(pid)
        lines = [f"*As built ({pid}).* {c['level_claimed']['text']}", "", f"*Deciding method.* {c['technique']}.", "", f"*Assumed / trusted.* {c['level_note']}"]
        if e:
            cov = e["coverage"]
            fams = cov.get("obligations_by_family") or {}
            muts = cov.get("mutant_self_test") or []
            killed = sum(1 for m in muts if m.get("killed"))
            lines += ["", f"*Last quick run.* {cov['discharged']}/{cov['obligations']} obligations discharged over {cov['paths_explored']} explored paths of "
                          f"{len(cov['functions_under_contract'])} functions under contract, {cov.get('instances_generated')}/{cov.get('instances_declared')} contract instances "
                          f"generated, solver time {cov.get('solver_seconds', 0):.1f} s, wall {e['wall_s']:.0f} s; mutant self-test {killed}/{len(muts)} detected"
                          + (f" ({sum(1 for m in muts if m.get('detected_as', '').startswith('undecided'))} as undecided)" if muts else "") + "."]
            if cov.get("bounded_stand_ins"):
                lines += ["", "*Bounded (never counted as proved).* " + "; ".join(cov["bounded_stand_ins"])]
        text = block(text, f"ASBUILT {pid}", "\n".join(lines))
    # findings
    rows = ["| Id | Properties | Failing obligation (pattern) | What fails | Witness | Status |", "|---|---|---|---|---|---|"]
    for f in kf["findings"]:
        props = f["property"] if isinstance(f["property"], list) else [f["property"]]
        ob = f["obligation"] if isinstance(f["obligation"], str) else "; ".join(f["obligation"])
        def esc(x):
            return str(x).replace("|", "\\|")
        rows.append(f"| {f['id']} | {', '.join(props)} | `{esc(ob[:110])}` | {esc(f['what'][:260])} | {esc(str(f.get('witness', ''))[:170])} | open: {esc(f.get('why_not_fixed', '')[:140])} |")
    for f in kf["fixed"]:
        props = [f["property"]] + f.get("also", [])
        rows.append(f"| {f['id']} | {', '.join(props)} | - | {esc(f['entry'][:300])} | {esc(str(f.get('witness', ''))[:170])} | **fixed** in `{f['commit']}` |")
    text = block(text, "FINDINGS", "\n".join(rows))
    # seeds
    rows = ["| Change | Property | What it changes | Needs, to manifest | Own check | Other checks run |", "|---|---|---|---|---|---|"]
    matrix = {}
    mp = os.path.join(HERE, "seeded", "MATRIX.txt")
    if os.path.exists(mp):
        for ln in open(mp):
            parts = [p.strip() for p in ln.strip().split("|")]
            if parts and parts[0]:
                matrix[parts[0]] = parts[1:]
    # the latest own-check results (tools/seed_matrix_par.sh: every stored change against its own property's check) override the first column
    op_ = os.path.join(HERE, "seeded", "MATRIX_own.txt")
    if os.path.exists(op_):
        for ln in open(op_):
            parts = [p.strip() for p in ln.strip().split("|")]
            if len(parts) >= 2 and parts[0]:
                matrix[parts[0]] = [parts[1]] + matrix.get(parts[0], [None])[1:]
    for d in sorted(glob.glob(os.path.join(HERE, "seeded", "*", "meta.json"))):
        n = os.path.basename(os.path.dirname(d))
        m = json.load(open(d))
        res = matrix.get(n, [])

        def short(r):
            mm = re.match(r"(C\d+) exit=(\d+) violations=(\d+) first=\[(.*)\]$", r)
            if not mm:
                return r[:80]
            verdict = {"0": "**missed** (exit 0)", "1": "violation", "2": "undecided (exit 2)", "3": "checker fault (exit 3)"}[mm.group(2)]
            return f"{mm.group(1)}: {verdict}" + (f", {mm.group(3)} obligations, first `{mm.group(4)[:90]}`" if mm.group(2) == "1" else "")
        own = short(res[0]) if res else (m.get("not_detectable", "") or m.get("caught_by", ""))[:160]
        others = "; ".join(short(r) for r in res[1:]) if len(res) > 1 else "-"
        def esc(x):
            return str(x).replace("|", "\\|")
        rows.append(f"| {n} | {m['property']} | {esc(m['change'][:200])} | {esc(m['needs_to_manifest'][:160])} | {esc(own)} | {esc(others)} |")
    text = block(text, "SEEDS", "\n".join(rows))
    for name, fn in (("SEEDNOTES", "design_seednotes.md"), ("FALSEALARMS", "design_falsealarms.md")):
        with open(os.path.join(HERE, "tools", fn)) as f:
            text = block(text, name, f.read())
    open(os.path.join(HERE, "DESIGN.md"), "w").write(text)
    print("DESIGN.md regenerated")


if __name__ == "__main__":
    main()
