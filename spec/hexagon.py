"""Architectural operand table of the Hexagon shortcode dialect (T-HEX).

Transcribed from the C07 property statement, the conventions of QEMU's target/hexagon/hex_common.py
cited in grammar.lark (register letters / access letters) and the rz-hexagon plugin macro names that
appear in emitted text.  Never imports repository code.
"""

# register class letter -> (bits of a single register, plugin class enum for explicit single, enum for explicit pair)
REG_CLASS = {
    "R": (32, "HEX_REG_CLASS_INT_REGS", "HEX_REG_CLASS_DOUBLE_REGS"),
    "N": (32, "HEX_REG_CLASS_INT_REGS", None),
    "P": (8, "HEX_REG_CLASS_PRED_REGS", None),
    "C": (32, "HEX_REG_CLASS_CTR_REGS", "HEX_REG_CLASS_CTR_REGS64"),
    "M": (32, "HEX_REG_CLASS_MOD_REGS", None),
    "V": (1024, "HEX_REG_CLASS_HVX_VR", "HEX_REG_CLASS_HVX_WR"),
    "Q": (128, "HEX_REG_CLASS_HVX_QR", None),
    "G": (32, "HEX_REG_CLASS_GUEST_REGS", "HEX_REG_CLASS_GUEST_REGS64"),
    "S": (32, "HEX_REG_CLASS_SYS_REGS", "HEX_REG_CLASS_SYS_REGS64"),
}

# access terminals of the grammar: token type -> spellings, (readable, writable, pair)
ACCESS = {
    "SRC_REG": (list("stuvw"), True, False, False),
    "DEST_REG": (list("de"), False, True, False),
    "SRC_DEST_REG": (list("xyz"), True, True, False),
    "SRC_REG_PAIR": (["ss", "tt", "uu", "vv"], True, False, True),
    "DEST_REG_PAIR": (["dd"], False, True, True),
    "SRC_DEST_REG_PAIR": (["xx", "yy"], True, True, True),
}

IMM_SIGNED = {"r": True, "R": True, "s": True, "S": True, "u": False, "U": False, "m": False, "n": False}

ALIAS_64 = {"UPCYCLE", "PKTCOUNT", "UTIMER"}


def letter_reg(letter, spelling, access_type, is_new):
    """Expected binding of a lettered register operand such as Rs / Rdd / PtN.
    Returns dict(name, width, slot, op_var, decl_op, readable)"""
    bits = REG_CLASS[letter][0]
    readable, writable, pair = ACCESS[access_type][1:]
    width = bits * 2 if pair else bits
    name = letter + spelling + ("_new" if is_new else "")
    slot = spelling[0]
    op_var = name + "_op"
    new = "true" if is_new else "false"
    if letter == "N":
        decl = f"const HexOp {op_var} = NREG2OP(bundle, '{slot}');"
        op_ref = "&" + op_var
    else:
        decl = f"const HexOp *{op_var} = ISA2REG(hi, '{slot}', {new});"
        op_ref = op_var
    return {"name": name, "width": width, "slot": slot, "op_var": op_var, "op_ref": op_ref, "decl_op": decl, "readable": readable,
            "writable": writable, "new": new, "signed": True}


def explicit_reg(text, is_new):
    """Expected binding of an explicitly numbered register: R31, P0, C1:0, V3:2 (+_NEW)."""
    letter = text[0]
    nums = [int(x) for x in text[1:].split(":")]
    pair = len(nums) == 2
    bits, single, double = REG_CLASS[letter]
    cls = double if pair else single
    return {"number": min(nums), "class": cls, "width": bits * 2 if pair else bits, "pair": pair,
            "name": text + ("_new" if is_new else ""), "new": "true" if is_new else "false"}


def alias(name, is_new):
    return {"enum": "HEX_REG_ALIAS_" + name.upper(), "width": 64 if name.upper() in ALIAS_64 else 32, "signed": False,
            "new": "true" if is_new else "false"}


# Prototypes of the QEMU helper functions / plugin macros the shortcode calls (T-PLUGIN): name -> (return type, parameter types,
# emitted macro).  Transcribed from QEMU's include/qemu/bitops.h and include/qemu/bswap.h (extract/deposit/bswap), target/hexagon
# (get_corresponding_CS, REGFIELD); the float helper rows are the plugin's declarations as found at the pinned commit (no
# independent source in the sandbox: they pin the table, they do not validate it).  The data file qemu_rzil_macros.json must agree.
MACRO_PROTOTYPES = {
    "extract32": ("uint32_t", ["uint32_t", "int32_t", "int32_t"], "EXTRACT32"),
    "extract64": ("uint64_t", ["uint64_t", "int32_t", "int32_t"], "EXTRACT64"),
    "sextract64": ("int64_t", ["uint64_t", "int32_t", "int32_t"], "SEXTRACT64"),
    "deposit32": ("uint32_t", ["uint32_t", "int32_t", "int32_t", "uint32_t"], "DEPOSIT32"),
    "deposit64": ("uint64_t", ["uint64_t", "int32_t", "int32_t", "uint64_t"], "DEPOSIT64"),
    "bswap16": ("uint16_t", ["uint16_t"], "BSWAP16"),
    "bswap32": ("uint32_t", ["uint32_t"], "BSWAP32"),
    "bswap64": ("uint64_t", ["uint64_t"], "BSWAP64"),
    "REGFIELD": ("uint32_t", ["HexRegFieldProperty", "HexRegField"], "HEX_REGFIELD"),
    "get_corresponding_CS": ("int32_t", ["HexPkt *pkt", "HexOp *Mu"], "HEX_GET_CORRESPONDING_CS"),
    "FLOAT": ("float", ["RzFloatFormat", "uint32_t"], "BV2F"),
    "DOUBLE": ("double", ["RzFloatFormat", "uint64_t"], "BV2F"),
    "fUNFLOAT": ("uint32_t", ["float"], "F2BV"),
    "fUNDOUBLE": ("uint64_t", ["double"], "F2BV"),
    "HEX_INT_TO_D": ("double", ["RzFloatRMode", "uint64_t"], "HEX_INT_TO_D"),
    "HEX_INT_TO_F": ("float", ["RzFloatRMode", "uint64_t"], "HEX_INT_TO_F"),
    "HEX_SINT_TO_D": ("double", ["RzFloatRMode", "int64_t"], "HEX_SINT_TO_D"),
    "HEX_SINT_TO_F": ("float", ["RzFloatRMode", "int64_t"], "HEX_SINT_TO_F"),
    "HEX_D_TO_INT": ("uint64_t", ["RzFloatRMode", "double"], "HEX_D_TO_INT"),
    "HEX_F_TO_INT": ("uint64_t", ["RzFloatRMode", "float"], "HEX_F_TO_INT"),
    "HEX_D_TO_SINT": ("uint64_t", ["RzFloatRMode", "double"], "HEX_D_TO_SINT"),
    "HEX_F_TO_SINT": ("uint64_t", ["RzFloatRMode", "float"], "HEX_F_TO_SINT"),
    "IS_INF": ("bool", ["float"], "IS_INF"),
    "HEX_GET_INSN_RMODE": ("RzFloatRMode", ["HexInsn"], "HEX_GET_INSN_RMODE"),
    "HEX_SETROUND": ("void", ["HexInsn", "RzFloatRMode"], "HEX_SETROUND"),
}

# Plugin calls the shortcode uses directly (T-PLUGIN): name -> (C return type or "void", parameter types; None = passed by name, not an IL value)
LEGACY_CALLS = {
    "get_npc": ((False, 32), [None]),                                            # next program counter of the packet: a 32-bit address
    "STORE_SLOT_CANCELLED": ("void", ["HexPkt *", (False, 8)]),                 # (packet, slot number 0..3)
    "WRITE_REG": ("void", ["HexPktInsnBundle", "HexOp", (False, 32)]),          # (bundle, operand, 32-bit value)
}
