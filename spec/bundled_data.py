"""Reviewed copies of two bundled data files (T-QEMU): the instructions that may be compiled as no-op and the C source of the
bundled sub-routines (transcriptions of the QEMU helpers of the same name).  They pin the data at the reviewed state: a changed
entry has to be reviewed here as well.  Never imports repository code."""

NOPED = ['R6_release_at_vi', 'R6_release_st_vi', 'Y4_l2fetch', 'Y5_l2fetch']

SUB_ROUTINES = {'clo32': {'code': '{ return clz32(~x); }', 'params': ['uint32_t x'], 'return_type': 'uint32_t'},
 'clo64': {'code': '{ return clz64(~x); }', 'params': ['uint64_t x'], 'return_type': 'uint64_t'},
 'clz32': {'code': '{ uint32_t clz32_x = t; if (clz32_x == 0) { return 32; } else { uint32_t clz32_n = 0; if (clz32_x <= 0x0000ffffu) { clz32_n += 16; clz32_x <<= 16; } if '
                   '(clz32_x <= 0x00ffffffu) { clz32_n += 8; clz32_x <<= 8; } if (clz32_x <= 0x0fffffffu) { clz32_n += 4; clz32_x <<= 4; } if (clz32_x <= 0x3fffffffu) { clz32_n '
                   '+= 2; clz32_x <<= 2; } if (clz32_x <= 0x7fffffffu) { clz32_n++; } return clz32_n; } }',
           'params': ['uint32_t t'],
           'return_type': 'uint32_t'},
 'clz64': {'code': '{ uint64_t clz64_x = t; if (clz64_x == 0) { return 64; } else { uint64_t clz64_n = 0; if (clz64_x <= 0x00000000ffffffffull) { clz64_n += 32; clz64_x <<= 32; } '
                   'if (clz64_x <= 0x0000ffffffffffffull) { clz64_n += 16; clz64_x <<= 16; } if (clz64_x <= 0x00ffffffffffffffull) { clz64_n += 8; clz64_x <<= 8; } if (clz64_x <= '
                   '0x0fffffffffffffffull) { clz64_n += 4; clz64_x <<= 4; } if (clz64_x <= 0x3fffffffffffffffull) { clz64_n += 2; clz64_x <<= 2; } if (clz64_x <= '
                   '0x7fffffffffffffffull) { clz64_n++; } return clz64_n; } }',
           'params': ['uint64_t t'],
           'return_type': 'uint64_t'},
 'conv_round': {'code': '{ int64_t conv_val; if (n == 0) { conv_val = a; } else if ((a & ((1 << (n - 1)) - 1)) == 0) { conv_val = ((((int64_t)((int32_t)(a)))) + '
                        '(int64_t)(((uint32_t)((1 << n) & a)) >> 1)); } else { conv_val = ((((int64_t)((int32_t)(a)))) + (1 << (n - 1))); } conv_val = conv_val >> n; return '
                        '(int32_t)conv_val; }',
                'params': ['int32_t a', 'int n'],
                'return_type': 'int32_t'},
 'fbrev': {'code': '{ return deposit32(addr, 0, 16, revbit16(addr)); }', 'params': ['uint32_t addr'], 'return_type': 'uint32_t'},
 'fcirc_add': {'code': '{ uint32_t K_const = extract32(M, 24, 4); uint32_t length = extract32(M, 0, 17); uint32_t new_ptr = RxV + offset; uint32_t start_addr; uint32_t end_addr; '
                       'if (K_const == 0 && length >= 4) { start_addr = CS; end_addr = start_addr + length; } else { int32_t mask = (1 << (K_const + 2)) - 1; start_addr = RxV & '
                       '(~mask); end_addr = start_addr | length; } if (new_ptr >= end_addr) { new_ptr -= length; } else if (new_ptr < start_addr) { new_ptr += length; } RxV = '
                       'new_ptr; return new_ptr;}',
               'params': ['HexInsnPktBundle *bundle', 'const HexOp *RxV', 'int32_t offset', 'int32_t M', 'int32_t CS'],
               'return_type': 'int32_t'},
 'get_usr_field': {'code': '{ return ((REGFIELD(HEX_RF_WIDTH, field)) ? extract64((HEX_REG_ALIAS_USR), (REGFIELD(HEX_RF_OFFSET, field)), (REGFIELD(HEX_RF_WIDTH, field))) : 0LL); '
                           '}',
                   'params': ['HexInsnPktBundle *bundle', 'HexRegField field'],
                   'return_type': 'uint32_t'},
 'revbit16': {'code': '{ uint16_t revbit16_x = bswap16(t); revbit16_x = ((uint16_t)((revbit16_x & 0xf0f0) >> 4)) | ((uint16_t)((revbit16_x & 0x0f0f) << 4)); revbit16_x = '
                      '((uint16_t)((revbit16_x & 0x8888) >> 3)) | ((uint16_t)((revbit16_x & 0x4444) >> 1)) | ((uint16_t)((revbit16_x & 0x2222) << 1)) | ((uint16_t)((revbit16_x & '
                      '0x1111) << 3)); return revbit16_x;}',
              'params': ['uint16_t t'],
              'return_type': 'uint16_t'},
 'revbit32': {'code': '{ uint32_t revbit32_x = bswap32(t); revbit32_x = ((revbit32_x & 0xf0f0f0f0u) >> 4) | ((revbit32_x & 0x0f0f0f0fu) << 4); revbit32_x = ((revbit32_x & '
                      '0x88888888u) >> 3) | ((revbit32_x & 0x44444444u) >> 1) | ((revbit32_x & 0x22222222u) << 1) | ((revbit32_x & 0x11111111u) << 3); return revbit32_x; }',
              'params': ['uint32_t t'],
              'return_type': 'uint32_t'},
 'revbit64': {'code': '{ uint64_t revbit64_x = bswap64(t); revbit64_x = ((revbit64_x & 0xf0f0f0f0f0f0f0f0ull) >> 4) | ((revbit64_x & 0x0f0f0f0f0f0f0f0full) << 4); revbit64_x = '
                      '((revbit64_x & 0x8888888888888888ull) >> 3) | ((revbit64_x & 0x4444444444444444ull) >> 1) | ((revbit64_x & 0x2222222222222222ull) << 1) | ((revbit64_x & '
                      '0x1111111111111111ull) << 3); return revbit64_x; }',
              'params': ['uint64_t t'],
              'return_type': 'uint64_t'},
 'set_usr_field': {'code': '{ HEX_REG_ALIAS_USR = (REGFIELD(HEX_RF_WIDTH, field) ? deposit64(HEX_REG_ALIAS_USR, REGFIELD(HEX_RF_OFFSET, field), REGFIELD(HEX_RF_WIDTH, field), '
                           'val) : HEX_REG_ALIAS_USR); }',
                   'params': ['HexInsnPktBundle *bundle', 'HexRegField field', 'uint32_t val'],
                   'return_type': 'void'},
 'trap': {'code': '{ uint32_t dummy = trap_type + imm; }', 'params': ['int32_t trap_type', 'uint32_t imm'], 'return_type': 'void'}}
