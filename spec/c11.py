"""C11 integer semantics used as the independent oracle (DESIGN.md section 2.6, T-C11).

Written from ISO/IEC 9899:2011 6.3.1.1 (integer promotions), 6.3.1.3 (conversions), 6.3.1.8
(usual arithmetic conversions), 6.5.x (operators) with QEMU's conventions stated in the
properties: two's-complement wrap-around, arithmetic >> on signed values, conversion rank =
bit width.  This file never imports repository code.

Types are pairs (signed, width).  Functions are polymorphic: with Python bool/int arguments
they compute concretely, with z3 terms they build terms.
"""
import z3

T8 = [(True, 8), (False, 8), (True, 16), (False, 16), (True, 32), (False, 32), (True, 64), (False, 64)]


def tname(t):
    return f"{'st' if t[0] else 'ut'}{t[1]}"


def _is_z3(*xs):
    return any(isinstance(x, z3.ExprRef) for x in xs)


def ite(c, a, b):
    if isinstance(c, bool):
        return a if c else b
    if isinstance(a, bool):
        a = z3.BoolVal(a)
    if isinstance(b, bool):
        b = z3.BoolVal(b)
    if isinstance(a, int):
        a = z3.IntVal(a)
    if isinstance(b, int):
        b = z3.IntVal(b)
    return z3.If(c, a, b)


def and_(*xs):
    if not _is_z3(*xs):
        return all(xs)
    return z3.And(*[z3.BoolVal(x) if isinstance(x, bool) else x for x in xs])


def or_(*xs):
    if not _is_z3(*xs):
        return any(xs)
    return z3.Or(*[z3.BoolVal(x) if isinstance(x, bool) else x for x in xs])


def not_(x):
    return (not x) if isinstance(x, bool) else z3.Not(x)


def eq(a, b):
    if isinstance(a, bool) and isinstance(b, z3.ExprRef):
        a = z3.BoolVal(a)
    if isinstance(b, bool) and isinstance(a, z3.ExprRef):
        b = z3.BoolVal(b)
    return a == b


# ---------------------------------------------------------------- type rules
def promote(s, w):
    """6.3.1.1p2: every type whose rank is below int's becomes int (int can represent all of
    its values since width < 32); everything else is unchanged."""
    narrow = w < 32
    return ite(narrow, True, s), ite(narrow, 32, w)


def uac(sa, wa, sb, wb):
    """6.3.1.8 on integer types with rank := width.
    same signedness -> the wider; otherwise if the unsigned operand's rank >= the signed
    operand's rank -> the unsigned type; otherwise the signed type can represent all values of
    the (narrower) unsigned type -> the signed type."""
    same = eq(sa, sb)
    w_max = ite(wa >= wb, wa, wb)
    # mixed: which is unsigned
    uw = ite(sa, wb, wa)   # width of the unsigned one
    sw = ite(sa, wa, wb)   # width of the signed one
    mixed_s = ite(uw >= sw, False, True)
    mixed_w = ite(uw >= sw, uw, sw)
    return ite(same, sa, mixed_s), ite(same, w_max, mixed_w)


def binop_type(op, ta, tb):
    """Result type of a binary operator on concrete types (signed, width)."""
    pa, pb = promote(*ta), promote(*tb)
    if op in ("<<", ">>"):
        return pa
    if op in ("<", ">", "<=", ">=", "==", "!=", "&&", "||"):
        return (True, 32)
    return uac(pa[0], pa[1], pb[0], pb[1])


def compare_type(ta, tb):
    pa, pb = promote(*ta), promote(*tb)
    return uac(pa[0], pa[1], pb[0], pb[1])


def unop_type(op, t):
    if op == "!":
        return (True, 32)
    return promote(*t)


# ---------------------------------------------------------------- values (bit-vectors)
def conv(x, src, dst_w):
    """6.3.1.3 on two's-complement bit patterns: value-preserving when representable, else
    modulo 2^N.  On patterns: narrowing keeps the low bits, widening sign-extends iff the
    *source* type is signed, same width keeps the pattern."""
    s, w = src
    assert x.size() == w, (x.size(), w)
    if dst_w < w:
        return z3.Extract(dst_w - 1, 0, x)
    if dst_w > w:
        return z3.SignExt(dst_w - w, x) if s else z3.ZeroExt(dst_w - w, x)
    return x


def truth(x):
    """scalar -> C truth value (non-zero)"""
    return x != z3.BitVecVal(0, x.size())


def bool_to_int(b, w=32):
    return z3.If(b, z3.BitVecVal(1, w), z3.BitVecVal(0, w))


def shift_defined(op, ta, b, tb):
    """6.5.7p3: UB if the right operand is negative or >= width of the promoted left operand.
    Returns the z3 precondition under which the C side is defined."""
    pa = promote(*ta)
    pb = promote(*tb)
    bb = conv(b, tb, pb[1])
    wv = z3.BitVecVal(pa[1], pb[1])
    if pb[0]:
        return z3.And(bb >= 0, bb < wv)
    return z3.ULT(bb, wv)


def div_defined(op, a, ta, b, tb):
    """6.5.5p5/p6: UB if the divisor is zero or the quotient is not representable (INT_MIN / -1)."""
    rt = binop_type(op, ta, tb)
    x, y = conv(a, ta, rt[1]), conv(b, tb, rt[1])
    pre = y != 0
    if rt[0]:
        pre = z3.And(pre, z3.Not(z3.And(x == z3.BitVecVal(1 << (rt[1] - 1), rt[1]), y == z3.BitVecVal(-1, rt[1]))))
    return pre


def binop_value(op, a, ta, b, tb):
    """Value (bit-vector of the result type's width) of `a op b` for operands of C types ta, tb.
    For shifts the caller must assume shift_defined()."""
    rt = binop_type(op, ta, tb)
    if op in ("<<", ">>"):
        pa = promote(*ta)
        pb = promote(*tb)
        x = conv(a, ta, pa[1])
        cnt = conv(b, tb, pb[1])
        # bring the count to the width of x (count < width is assumed, so this is value-preserving)
        if pb[1] < pa[1]:
            cnt = z3.ZeroExt(pa[1] - pb[1], cnt)
        elif pb[1] > pa[1]:
            cnt = z3.Extract(pa[1] - 1, 0, cnt)
        if op == "<<":
            return x << cnt      # QEMU convention: wrap-around (also for signed left operands)
        return (x >> cnt) if pa[0] else z3.LShR(x, cnt)
    ct = compare_type(ta, tb)
    x = conv(conv(a, ta, promote(*ta)[1]), promote(*ta), ct[1])
    y = conv(conv(b, tb, promote(*tb)[1]), promote(*tb), ct[1])
    if op == "+":
        return x + y
    if op == "-":
        return x - y
    if op == "*":
        return x * y
    if op == "&":
        return x & y
    if op == "|":
        return x | y
    if op == "^":
        return x ^ y
    if op in ("<", ">", "<=", ">=", "==", "!="):
        if ct[0]:
            r = {"<": x < y, ">": x > y, "<=": x <= y, ">=": x >= y, "==": x == y, "!=": x != y}[op]
        else:
            r = {"<": z3.ULT(x, y), ">": z3.UGT(x, y), "<=": z3.ULE(x, y), ">=": z3.UGE(x, y), "==": x == y,
                 "!=": x != y}[op]
        return bool_to_int(r)
    if op == "&&":
        return bool_to_int(z3.And(truth(a), truth(b)))
    if op == "||":
        return bool_to_int(z3.Or(truth(a), truth(b)))
    if op == "/":
        return (x / y) if ct[0] else z3.UDiv(x, y)      # z3 bvsdiv truncates toward zero like C
    if op == "%":
        return z3.SRem(x, y) if ct[0] else z3.URem(x, y)
    raise ValueError(op)


def unop_value(op, a, ta):
    pa = promote(*ta)
    x = conv(a, ta, pa[1])
    if op == "~":
        return ~x
    if op == "-":
        return -x
    if op == "+":
        return x
    if op == "!":
        return bool_to_int(z3.Not(truth(a)))
    raise ValueError(op)


def cond_type(tb, tc):
    return compare_type(tb, tc)


def cond_value(c, b, tb, d, td):
    """c ? b : d with c already a z3 Bool (truth of the condition)."""
    rt = cond_type(tb, td)
    x = conv(conv(b, tb, promote(*tb)[1]), promote(*tb), rt[1])
    y = conv(conv(d, td, promote(*td)[1]), promote(*td), rt[1])
    return z3.If(c, x, y)


# ---------------------------------------------------------------- literals (6.4.4.1)
INT_MAX = 2 ** 31 - 1
UINT_MAX = 2 ** 32 - 1
LLONG_MAX = 2 ** 63 - 1
ULLONG_MAX = 2 ** 64 - 1


def literal_type(value, is_hex, suffix):
    """First type of the 6.4.4.1p5 list in which `value` fits (LP64: long == long long == 64).
    Returns (signed, width) or None if no type fits.  value may be a z3 Int -> returns z3 pair
    plus a 'fits' condition."""
    sfx = suffix.upper()
    cands = {
        ("", False): [(True, 32), (True, 64)],
        ("", True): [(True, 32), (False, 32), (True, 64), (False, 64)],
        ("U", False): [(False, 32), (False, 64)],
        ("U", True): [(False, 32), (False, 64)],
        ("LL", False): [(True, 64)],
        ("LL", True): [(True, 64), (False, 64)],
        ("ULL", False): [(False, 64)],
        ("ULL", True): [(False, 64)],
    }[(sfx, bool(is_hex))]

    def maxof(t):
        return (2 ** (t[1] - 1) - 1) if t[0] else (2 ** t[1] - 1)
    if isinstance(value, int):
        for t in cands:
            if value <= maxof(t):
                return t
        return None
    # symbolic: nested ite; returns (signed, width, fits)
    s, w, fits = z3.BoolVal(cands[-1][0]), z3.IntVal(cands[-1][1]), value <= maxof(cands[-1])
    for t in reversed(cands[:-1]):
        c = value <= maxof(t)
        s = z3.If(c, z3.BoolVal(t[0]), s)
        w = z3.If(c, z3.IntVal(t[1]), w)
    return s, w, fits
