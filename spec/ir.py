"""Ghost semantics of the IR (DESIGN.md section 2.7): sort(n), den(n), WF(n).

`den` is the meaning an IR node is *supposed* to have (a z3 bit-vector / Bool over the
denotations of its leaves); emission contracts say the emitted text realises it, callback
contracts say it equals the C11 meaning.  Works on interpreter heap records (pyvc.values.Obj)
and never looks at repository code.
"""
from __future__ import annotations
import z3
from . import c11

BOOL_CLASSES = ("CompareOp", "BooleanOp", "Bool")


class NotWF(Exception):
    pass


def _is_rec(o):
    return hasattr(o, "cls") and hasattr(o, "fields")


class _F:
    """field view that works for interpreter heap records and for real objects (native replay)"""

    def __init__(self, o):
        self.o = o

    def __getitem__(self, k):
        if _is_rec(self.o):
            return self.o.fields[k]
        return getattr(self.o, k)

    def get(self, k, d=None):
        if _is_rec(self.o):
            return self.o.fields.get(k, d)
        return getattr(self.o, k, d)


def ghost(o):
    if _is_rec(o):
        return o.ghost
    g = getattr(o, "_verif_ghost", None)
    if g is None:
        g = {}
        names = [c.__name__ for c in type(o).__mro__]
        if "PureExec" not in names and "LetVar" not in names:
            # real leaf (Variable, Register, ...): its value is the free variable named after it
            t = (o.value_type._signed, o.value_type._bit_width)
            g = {"den": z3.BitVec(o.get_name(), t[1]), "sort": ("bv", t[1])}
        try:
            o._verif_ghost = g
        except Exception:
            pass
    return g


def cls_names(o):
    if _is_rec(o):
        return [getattr(c, "name", getattr(c, "__name__", "?")) for c in o.cls.compute_mro()]
    return [c.__name__ for c in type(o).__mro__]


def isa(o, name):
    return name in cls_names(o)


def vt(o):
    """(signed, width) of node o (concrete)."""
    t = _F(o).get("value_type")
    if t is None:
        raise NotWF(f"{o!r} has no value_type")
    return vt_of(t)


def vt_of(t):
    s, w = _F(t)["_signed"], _F(t)["_bit_width"]
    if isinstance(w, str) and w.isdigit():
        w = int(w)   # mem_load / mem_store build their types from the BIT_WIDTH token (a str subclass)
    if not isinstance(s, bool) or not isinstance(w, int):
        raise NotWF("symbolic type where a concrete one is needed")
    return (s, w)


def group(o):
    return _F(_F(o)["value_type"])["group"]


def sort(o):
    """RzIL sort of the text n.il_read() yields."""
    if "sort" in ghost(o):
        return ghost(o)["sort"]
    for b in BOOL_CLASSES:
        if isa(o, b):
            return "bool"
    if isa(o, "Ternary"):
        # c ? x : y has the sort of its arms (ITE over two booleans is a boolean)
        arms = _F(o)["ops"][1:]
        if arms and all(sort(a) == "bool" for a in arms):
            return "bool"
    if isa(o, "MacroInvocation"):
        g = group(o)
        if "BOOL" in str(g):
            return "bool"
    return ("bv", vt(o)[1])


def truth(o):
    """den as C truth value (z3 Bool)."""
    d = den(o)
    if sort(o) == "bool":
        return d
    return d != 0


def den(o):
    if "den" in ghost(o):
        return ghost(o)["den"]
    names = cls_names(o)
    f = _F(o)
    if "Cast" in names:
        src = f["ops"][0]
        if sort(src) == "bool":
            raise NotWF("Cast of a bool-sorted operand (must be lowered as ITE(c, 1, 0))")
        return c11.conv(den(src), vt(src), vt(o)[1])
    if "ArithmeticOp" in names:
        a, b = f["ops"]
        x, y = _bvpair(a, b, str(f["arith_type"]))
        op = str(f["arith_type"].value)
        s = vt(a)[0]
        if op == "+":
            return x + y
        if op == "-":
            return x - y
        if op == "*":
            return x * y
        if op == "/":
            return (x / y) if s else z3.UDiv(x, y)
        if op == "%":
            return z3.SRem(x, y) if s else z3.URem(x, y)
    if "BitOp" in names:
        op = str(f["op_type"].value)
        ops = f["ops"]
        if op in ("~", "-"):
            x = _bv(ops[0])
            return ~x if op == "~" else -x
        if op in ("<<", ">>"):
            x, cnt = _bv(ops[0]), _bv(ops[1])
            w = x.size()
            if cnt.size() < w:
                c2 = z3.ZeroExt(w - cnt.size(), cnt)
            elif cnt.size() > w:
                c2 = z3.Extract(w - 1, 0, cnt)
            else:
                c2 = cnt
            if op == "<<":
                return x << c2
            return (x >> c2) if vt(ops[0])[0] else z3.LShR(x, c2)
        x, y = _bvpair(ops[0], ops[1], op)
        return {"&": x & y, "|": x | y, "^": x ^ y}[op]
    if "CompareOp" in names:
        a, b = f["ops"]
        x, y = _bvpair(a, b, "compare")
        if vt(a) != vt(b):
            raise NotWF(f"CompareOp operands of different types {vt(a)} {vt(b)}")
        s = vt(a)[0]
        op = str(f["op_type"].value)
        if s:
            return {"<": x < y, ">": x > y, "<=": x <= y, ">=": x >= y, "==": x == y, "!=": x != y}[op]
        return {"<": z3.ULT(x, y), ">": z3.UGT(x, y), "<=": z3.ULE(x, y), ">=": z3.UGE(x, y), "==": x == y,
                "!=": x != y}[op]
    if "BooleanOp" in names:
        op = str(f["op_type"].value)
        ops = f["ops"]
        if op == "!":
            return z3.Not(truth(ops[0]))
        a, b = truth(ops[0]), truth(ops[1])
        return z3.And(a, b) if op == "&&" else z3.Or(a, b)
    if "Ternary" in names:
        c, a, b = f["ops"]
        if sort(a) != sort(b):
            raise NotWF(f"Ternary arms of different sorts {sort(a)} {sort(b)}")
        return z3.If(truth(c), den(a), den(b))
    if "Bool" in names:
        return z3.BoolVal(bool(f["value"]))
    if "LetVar" in names:  # Number, Sizeof
        w = vt(o)[1]
        v = f["value"]
        if isinstance(v, int):
            return z3.BitVecVal(v % (2 ** w), w)
        if hasattr(v, "t"):
            return z3.Int2BV(v.t, w)
        raise NotWF("non-integer literal")
    raise NotWF(f"no ghost meaning for {o!r} ({names[0]})")


def _bv(o):
    if sort(o) == "bool":
        raise NotWF(f"bool-sorted operand {o!r} where a bit-vector is required")
    return den(o)


def _bvpair(a, b, what):
    x, y = _bv(a), _bv(b)
    if x.size() != y.size():
        raise NotWF(f"operand widths differ for {what}: {x.size()} vs {y.size()}")
    return x, y


def wf_split(o, depth=0):
    """(flag problems, structural problems) of node o.
    flag: sort(n) = bool  <=>  value_type.group has BOOL (consumers such as init_a_cast look at the flag);
    structural: the ghost meaning is undefined (bool where a bit-vector is needed, unequal widths, ...)."""
    flags, structs = [], []
    try:
        s = sort(o)
        g = group(o)
        is_bool_flag = "BOOL" in str(g)
        if (s == "bool") != is_bool_flag:
            flags.append(f"{o!r}: sort is {s} but value_type.group is {g}")
    except NotWF as e:
        structs.append(str(e))
        return flags, structs
    if "den" not in ghost(o):
        try:
            den(o)
        except NotWF as e:
            structs.append(str(e))
        for ch in _F(o).get("ops", []) or []:
            if _is_rec(ch) or hasattr(ch, "value_type"):
                f2, s2 = wf_split(ch, depth + 1)
                flags.extend(f2)
                for x in s2:
                    if x not in structs:
                        structs.append(x)
    return flags, structs


def wf_problems(o, depth=0):
    """Returns a list of well-formedness problems of node o (empty list = WF)."""
    f, s = wf_split(o)
    return f + s
