"""RzIL operator semantics, sort rules and a parser for the emitted C expressions (T-RZIL).

Transcribed from Rizin's rz_il_opcodes.h / rz_il_opbuilder_begin.h documentation and from the
rz-hexagon plugin's hexagon_il.h macro conventions (Rizin is not available in the sandbox; the
table is trusted and listed in DESIGN.md section 5).  Never imports repository code.

Terms:  ("call", name, [args]) | ("num", int) | ("symnum", z3 Int) | ("str", s) | ("chr", c) |
        ("id", name) | ("atom", Atom) | ("ccast", ctype, term) | ("addr", term) | ("arrow", term, field)
Sorts:  ("bv", w) | "bool" | "effect" | "float" | "cint" | "cstr" | ("ext", what)
"""
from __future__ import annotations
import re
import z3


class ParseError(Exception):
    pass


class SortError(Exception):
    pass


TOKEN_RE = re.compile(r"""
    (?P<ws>\s+)
  | (?P<num>-?0[xX][0-9a-fA-F]+|-?\d+)
  | (?P<str>"(?:[^"\\]|\\.)*")
  | (?P<chr>'(?:[^'\\]|\\.)')
  | (?P<arrow>->)
  | (?P<id>[A-Za-z_][A-Za-z_0-9]*)
  | (?P<punct>[(),&*;=])
""", re.X)


def tokenize(text_or_parts):
    """Accepts a str or a list of template parts (str | Atom | SInt-like with .t)."""
    parts = [text_or_parts] if isinstance(text_or_parts, str) else list(text_or_parts)
    toks = []
    for p in parts:
        if isinstance(p, str):
            pos = 0
            while pos < len(p):
                m = TOKEN_RE.match(p, pos)
                if not m:
                    raise ParseError(f"bad character {p[pos]!r} in {p!r}")
                pos = m.end()
                k = m.lastgroup
                if k == "ws":
                    continue
                toks.append((k, m.group()))
        elif hasattr(p, "tag"):
            if getattr(p, "kind", "") == "fmtint":
                toks.append(("symnum", p.meta["term"]))
            else:
                toks.append(("atom", p))
        elif hasattr(p, "t"):
            toks.append(("symnum", p.t))
        else:
            raise ParseError(f"bad template part {p!r}")
    return toks


class Parser:
    def __init__(self, toks):
        self.toks = toks
        self.i = 0

    def peek(self):
        return self.toks[self.i] if self.i < len(self.toks) else ("eof", "")

    def next(self):
        t = self.peek()
        self.i += 1
        return t

    def expect(self, kind, val=None):
        t = self.next()
        if t[0] != kind or (val is not None and t[1] != val):
            raise ParseError(f"expected {val or kind}, got {t}")
        return t

    def expr(self):
        k, v = self.peek()
        if k == "num":
            self.next()
            return ("num", int(v, 0))
        if k == "symnum":
            self.next()
            return ("symnum", v)
        if k == "str":
            self.next()
            return ("str", v[1:-1])
        if k == "chr":
            self.next()
            return ("chr", v[1:-1])
        if k == "atom":
            self.next()
            return ("atom", v)
        if k == "punct" and v == "&":
            self.next()
            return ("addr", self.expr())
        if k == "punct" and v == "(":
            # C cast "(st32) expr" or parenthesised expression
            self.next()
            k2, v2 = self.peek()
            if k2 == "id" and self.toks[self.i + 1] == ("punct", ")") and re.fullmatch(r"[su]t\d+|u?int\d+_t", v2):
                self.next()
                self.next()
                return ("ccast", v2, self.expr())
            e = self.expr()
            self.expect("punct", ")")
            return e
        if k == "id":
            self.next()
            node = ("id", v)
            while True:
                k2, v2 = self.peek()
                if k2 == "punct" and v2 == "(":
                    self.next()
                    args = []
                    if self.peek() != ("punct", ")"):
                        args.append(self.expr())
                        while self.peek() == ("punct", ","):
                            self.next()
                            args.append(self.expr())
                    self.expect("punct", ")")
                    if node[0] != "id":
                        raise ParseError("call of non-identifier")
                    node = ("call", node[1], args)
                elif k2 == "arrow":
                    self.next()
                    f = self.expect("id")[1]
                    node = ("arrow", node, f)
                else:
                    break
            return node
        raise ParseError(f"unexpected token {k} {v!r}")


def parse_expr(text_or_parts):
    p = Parser(tokenize(text_or_parts))
    e = p.expr()
    if p.peek()[0] != "eof":
        raise ParseError(f"trailing tokens after expression: {p.toks[p.i:p.i + 4]}")
    return e


def show(t):
    k = t[0]
    if k == "call":
        return f"{t[1]}({', '.join(show(a) for a in t[2])})"
    if k == "num":
        return str(t[1])
    if k == "symnum":
        return f"<{t[1]}>"
    if k == "str":
        return f'"{t[1]}"'
    if k == "chr":
        return f"'{t[1]}'"
    if k == "id":
        return t[1]
    if k == "atom":
        return repr(t[1])
    if k == "ccast":
        return f"({t[1]}) {show(t[2])}"
    if k == "addr":
        return "&" + show(t[1])
    if k == "arrow":
        return f"{show(t[1])}->{t[2]}"
    return str(t)


# ------------------------------------------------------------------------------------------
class Val:
    __slots__ = ("sort", "v")

    def __init__(self, sort, v=None):
        self.sort = sort
        self.v = v

    def __repr__(self):
        return f"Val({self.sort}, {self.v})"


def bv(w):
    return ("bv", w)


def is_bv(s):
    return isinstance(s, tuple) and s[0] == "bv"


BV_BIN = {"ADD": lambda a, b: a + b, "SUB": lambda a, b: a - b, "MUL": lambda a, b: a * b,
          "DIV": lambda a, b: z3.If(b == 0, z3.BitVecVal(-1, a.size()), z3.UDiv(a, b)),
          "MOD": lambda a, b: z3.If(b == 0, a, z3.URem(a, b)),
          "SDIV": lambda a, b: a / b, "SMOD": lambda a, b: z3.SRem(a, b),
          "LOGAND": lambda a, b: a & b, "LOGOR": lambda a, b: a | b, "LOGXOR": lambda a, b: a ^ b}
BV_CMP = {"EQ": lambda a, b: a == b, "ULT": z3.ULT, "ULE": z3.ULE, "UGT": z3.UGT, "UGE": z3.UGE,
          "SLT": lambda a, b: a < b, "SLE": lambda a, b: a <= b, "SGT": lambda a, b: a > b, "SGE": lambda a, b: a >= b}
BOOL_BIN = {"AND": z3.And, "OR": z3.Or, "XOR": z3.Xor}
EXT_PASS = {"pkt", "hi", "bundle"}


def shift_amount(y, w):
    """RzIL shifts take a distance of any width; distances >= w shift everything out."""
    yw = y.size()
    if yw == w:
        return y, z3.UGE(y, z3.BitVecVal(w, w)) if w > 0 else z3.BoolVal(False)
    if yw < w:
        ye = z3.ZeroExt(w - yw, y)
        big = z3.UGE(ye, z3.BitVecVal(w, w)) if (1 << yw) > w else z3.BoolVal(False)
        return ye, big
    big = z3.UGE(y, z3.BitVecVal(w, yw))
    return z3.Extract(w - 1, 0, y), big


class Evaluator:
    """Sort-checks a term and (for pure terms over atoms with a `den`) builds its z3 meaning.

    locals_w : dict local variable name -> width (VARL / SETL single-width discipline); a name
               missing from the map is given the sort found at its first SETL (recorded).
    """

    def __init__(self, locals_w=None, op_widths=None, strict_locals=False, cvars=None):
        self.locals_w = dict(locals_w or {})
        self.op_widths = dict(op_widths or {})   # register operand variable -> width
        self.cvars = dict(cvars or {})           # C variable holding an IL node -> its sort
        self.let_scope = []
        self.strict_locals = strict_locals
        self.atom_uses = []

    def err(self, msg, t):
        raise SortError(f"{msg} in {show(t)}")

    def cint(self, t):
        if t[0] == "num":
            return t[1]
        if t[0] == "symnum":
            return t[1]
        if t[0] == "call" and t[1] in ("sizeof",):
            return None
        self.err("C integer literal expected", t)

    def ev(self, t) -> Val:
        k = t[0]
        if k == "atom":
            a = t[1]
            self.atom_uses.append(a)
            srt = a.meta.get("sort")
            if srt is None:
                self.err("atom without sort", t)
            return Val(srt, a.meta.get("den"))
        if k == "num" or k == "symnum":
            return Val("cint", t[1])
        if k == "str":
            return Val("cstr", t[1])
        if k == "chr":
            return Val("cint", None)
        if k == "id":
            n = t[1]
            if n == "IL_FALSE":
                return Val("bool", z3.BoolVal(False))
            if n == "IL_TRUE":
                return Val("bool", z3.BoolVal(True))
            if n in EXT_PASS:
                return Val(("ext", n))
            if n in ("true", "false"):
                return Val("cint", 1 if n == "true" else 0)
            if n in self.cvars:
                srt = self.cvars[n]
                self.cvar_uses = getattr(self, "cvar_uses", []) + [n]
                return Val(srt, z3.BitVec(f"cvar_{n}", srt[1]) if is_bv(srt) and isinstance(srt[1], int) else (z3.Bool(f"cvar_{n}") if srt == "bool" else None))
            return Val(("ext", "cvar:" + n))
        if k == "addr":
            return Val(("ext", "addr"))
        if k == "arrow":
            return Val("cint", None)
        if k == "ccast":
            return Val("cint", None)
        if k != "call":
            self.err("unknown term", t)
        name, args = t[1], t[2]
        f = getattr(self, "op_" + name, None)
        if f is not None:
            return f(t, args)
        if name in BV_BIN:
            a, b = self.args(t, args, 2)
            self.need_bv(a, t)
            self.need_bv(b, t)
            if a.sort != b.sort:
                self.err(f"{name} operand widths differ ({a.sort[1]} vs {b.sort[1]})", t)
            return Val(a.sort, BV_BIN[name](a.v, b.v) if a.v is not None and b.v is not None else None)
        if name in BV_CMP:
            a, b = self.args(t, args, 2)
            self.need_bv(a, t)
            self.need_bv(b, t)
            if a.sort != b.sort:
                self.err(f"{name} operand widths differ ({a.sort[1]} vs {b.sort[1]})", t)
            return Val("bool", BV_CMP[name](a.v, b.v) if a.v is not None and b.v is not None else None)
        if name in BOOL_BIN:
            a, b = self.args(t, args, 2)
            self.need_bool(a, t)
            self.need_bool(b, t)
            return Val("bool", BOOL_BIN[name](a.v, b.v) if a.v is not None and b.v is not None else None)
        m = re.fullmatch(r"([SU])(8|16|32|64)", name)
        if m:
            (a,) = self.args(t, args, 1)
            if a.sort != "cint":
                self.err("C integer expected", t)
            w = int(m.group(2))
            return Val(bv(w), z3.BitVecVal(a.v, w) if isinstance(a.v, int) else None)
        m = re.fullmatch(r"SEQ([2-8])", name)
        if m:
            vs = self.args(t, args, int(m.group(1)))
            for v in vs:
                self.need_effect(v, t)
            return Val("effect")
        if name.startswith("HEX_") or name in PLUGIN_PURE:
            return self.plugin(t, name, args)
        self.err(f"unknown RzIL operator {name}", t)

    # -- helpers --------------------------------------------------------------
    def args(self, t, args, n):
        if len(args) != n:
            self.err(f"{t[1]} takes {n} arguments, got {len(args)}", t)
        return [self.ev(a) for a in args]

    def need_bv(self, v, t):
        if not is_bv(v.sort):
            self.err(f"bitvector expected, got {v.sort}", t)

    def need_bool(self, v, t):
        if v.sort != "bool":
            self.err(f"boolean expected, got {v.sort}", t)

    def need_effect(self, v, t):
        if v.sort != "effect":
            self.err(f"effect expected, got {v.sort}", t)

    # -- operators ------------------------------------------------------------
    def _lit(self, t, args, signed):
        if len(args) != 2:
            self.err("SN/UN take 2 arguments", t)
        w = self.cint(args[0])
        v = self.ev(args[1])
        if v.sort != "cint":
            self.err("C integer value expected", t)
        if not isinstance(w, int):
            return Val(("bv", w), None)
        if w < 1:
            self.err("width < 1", t)
        val = v.v
        if isinstance(val, int):
            # the C argument is st64 / ut64: the literal must be representable in C at all
            if not (-(2 ** 63) <= val < 2 ** 64):
                self.err("literal does not fit a 64-bit C integer", t)
            return Val(bv(w), z3.BitVecVal(val % (2 ** w), w))
        if val is not None and z3.is_expr(val):
            return Val(bv(w), z3.Int2BV(val, w))
        return Val(bv(w), None)

    def op_SN(self, t, args):
        return self._lit(t, args, True)

    def op_UN(self, t, args):
        return self._lit(t, args, False)

    def op_DUP(self, t, args):
        (a,) = self.args(t, args, 1)
        return a

    def op_VARL(self, t, args):
        if len(args) != 1 or args[0][0] not in ("str", "atom"):
            self.err("VARL takes a variable name", t)
        if args[0][0] == "atom":
            return Val(args[0][1].meta.get("var_sort") or self.err("VARL of unsorted atom", t))
        n = args[0][1]
        if n in self.locals_w:
            s = self.locals_w[n]
            return Val(s if not isinstance(s, int) else bv(s), z3.BitVec(f"local_{n}", s) if isinstance(s, int) else None)
        if self.strict_locals:
            self.err(f"local {n} read before any SETL", t)
        return Val(("bv", None))

    def op_VARLP(self, t, args):
        if len(args) != 1 or args[0][0] != "str":
            self.err("VARLP takes a name", t)
        n = args[0][1]
        for nm, s in reversed(self.let_scope):
            if nm == n:
                return s
        self.err(f"LET-bound name {n} not in scope", t)

    def op_LET(self, t, args):
        if len(args) != 3 or args[0][0] != "str":
            self.err("LET(name, value, body)", t)
        v = self.ev(args[1])
        if not (is_bv(v.sort) or v.sort == "bool"):
            self.err("LET value must be pure", t)
        self.let_scope.append((args[0][1], v))
        try:
            return self.ev(args[2])
        finally:
            self.let_scope.pop()

    def op_NEG(self, t, args):
        (a,) = self.args(t, args, 1)
        self.need_bv(a, t)
        return Val(a.sort, -a.v if a.v is not None else None)

    def op_LOGNOT(self, t, args):
        (a,) = self.args(t, args, 1)
        self.need_bv(a, t)
        return Val(a.sort, ~a.v if a.v is not None else None)

    def _shift(self, t, args, kind):
        a, b = self.args(t, args, 2)
        self.need_bv(a, t)
        self.need_bv(b, t)
        if a.v is None or b.v is None:
            return Val(a.sort)
        w = a.sort[1]
        y, big = shift_amount(b.v, w)
        zero = z3.BitVecVal(0, w)
        if kind == "l":
            r = z3.If(big, zero, a.v << y)
        elif kind == "r0":
            r = z3.If(big, zero, z3.LShR(a.v, y))
        else:
            allsign = z3.If(z3.Extract(w - 1, w - 1, a.v) == 1, z3.BitVecVal(-1, w), zero)
            r = z3.If(big, allsign, a.v >> y)
        return Val(a.sort, r)

    def op_SHIFTL0(self, t, args):
        return self._shift(t, args, "l")

    def op_SHIFTR0(self, t, args):
        return self._shift(t, args, "r0")

    def op_SHIFTRA(self, t, args):
        return self._shift(t, args, "ra")

    def op_INV(self, t, args):
        (a,) = self.args(t, args, 1)
        self.need_bool(a, t)
        return Val("bool", z3.Not(a.v) if a.v is not None else None)

    def op_NON_ZERO(self, t, args):
        (a,) = self.args(t, args, 1)
        self.need_bv(a, t)
        return Val("bool", a.v != 0 if a.v is not None else None)

    def op_IS_ZERO(self, t, args):
        (a,) = self.args(t, args, 1)
        self.need_bv(a, t)
        return Val("bool", a.v == 0 if a.v is not None else None)

    def op_MSB(self, t, args):
        (a,) = self.args(t, args, 1)
        self.need_bv(a, t)
        if a.v is None:
            return Val("bool")
        w = a.sort[1]
        return Val("bool", z3.Extract(w - 1, w - 1, a.v) == 1)

    def op_LSB(self, t, args):
        (a,) = self.args(t, args, 1)
        self.need_bv(a, t)
        return Val("bool", z3.Extract(0, 0, a.v) == 1 if a.v is not None else None)

    def op_ITE(self, t, args):
        c, a, b = self.args(t, args, 3)
        self.need_bool(c, t)
        if not (is_bv(a.sort) or a.sort in ("bool", "float")):
            self.err("ITE arms must be pure", t)
        if a.sort != b.sort:
            self.err(f"ITE arms differ in sort ({a.sort} vs {b.sort})", t)
        ok = c.v is not None and a.v is not None and b.v is not None
        return Val(a.sort, z3.If(c.v, a.v, b.v) if ok else None)

    def op_CAST(self, t, args):
        if len(args) != 3:
            self.err("CAST takes 3 arguments", t)
        n = self.cint(args[0])
        fill = self.ev(args[1])
        v = self.ev(args[2])
        self.need_bool(fill, t)
        self.need_bv(v, t)
        if not isinstance(n, int):
            return Val(("bv", n))
        if n < 1:
            self.err("CAST to width < 1", t)
        if v.v is None or fill.v is None:
            return Val(bv(n))
        w = v.sort[1]
        if n <= w:
            return Val(bv(n), z3.Extract(n - 1, 0, v.v))
        hi = z3.If(fill.v, z3.BitVecVal(-1, n - w), z3.BitVecVal(0, n - w))
        return Val(bv(n), z3.Concat(hi, v.v))

    def _ext(self, t, args, signed):
        if len(args) != 2:
            self.err("SIGNED/UNSIGNED take 2 arguments", t)
        n = self.cint(args[0])
        v = self.ev(args[1])
        self.need_bv(v, t)
        if not isinstance(n, int):
            return Val(("bv", n))
        if v.v is None:
            return Val(bv(n))
        w = v.sort[1]
        if n <= w:
            return Val(bv(n), z3.Extract(n - 1, 0, v.v))
        return Val(bv(n), z3.SignExt(n - w, v.v) if signed else z3.ZeroExt(n - w, v.v))

    def op_SIGNED(self, t, args):
        return self._ext(t, args, True)

    def op_UNSIGNED(self, t, args):
        return self._ext(t, args, False)

    def _incdec(self, t, args, sign):
        if len(args) != 2:
            self.err("INC/DEC take 2 arguments", t)
        v = self.ev(args[0])
        n = self.cint(args[1])
        self.need_bv(v, t)
        if isinstance(n, int) and v.sort[1] is not None and n != v.sort[1]:
            self.err(f"INC/DEC width {n} differs from operand width {v.sort[1]}", t)
        return Val(v.sort, (v.v + sign) if v.v is not None else None)

    def op_INC(self, t, args):
        return self._incdec(t, args, 1)

    def op_DEC(self, t, args):
        return self._incdec(t, args, -1)

    def op_LOADW(self, t, args):
        if len(args) != 2:
            self.err("LOADW takes 2 arguments", t)
        n = self.cint(args[0])
        a = self.ev(args[1])
        self.need_bv(a, t)
        return Val(bv(n), z3.BitVec("mem_" + str(abs(hash(str(a.v))) % 10 ** 8), n)
                   if isinstance(n, int) and a.v is not None else None)

    # -- effects ----------------------------------------------------------------
    def op_EMPTY(self, t, args):
        self.args(t, args, 0)
        return Val("effect")

    def op_NOP(self, t, args):
        self.args(t, args, 0)
        return Val("effect")

    def op_SETL(self, t, args):
        if len(args) != 2 or args[0][0] not in ("str", "atom"):
            self.err("SETL(name, value)", t)
        v = self.ev(args[1])
        if not (is_bv(v.sort) or v.sort in ("bool", "float")):
            self.err(f"SETL value must be pure, got {v.sort}", t)
        if args[0][0] == "str":
            n = args[0][1]
            cur = self.locals_w.get(n)
            cur_s = bv(cur) if isinstance(cur, int) else cur
            if cur_s is not None and v.sort != cur_s and not (is_bv(v.sort) and v.sort[1] is None):
                self.err(f"local {n} has sort {cur_s} but is assigned {v.sort}", t)
            if cur_s is None:
                self.locals_w[n] = v.sort
        else:
            want = args[0][1].meta.get("var_sort")
            if want is not None and v.sort != want:
                self.err(f"local {args[0][1]!r} has sort {want} but is assigned {v.sort}", t)
        return Val("effect")

    def op_STOREW(self, t, args):
        a, v = self.args(t, args, 2)
        self.need_bv(a, t)
        self.need_bv(v, t)
        return Val("effect")

    def op_SEQN(self, t, args):
        if not args:
            self.err("SEQN without count", t)
        n = self.cint(args[0])
        if isinstance(n, int) and n != len(args) - 1:
            self.err(f"SEQN count {n} != {len(args) - 1} arguments", t)
        for a in args[1:]:
            self.need_effect(self.ev(a), t)
        return Val("effect")

    def op_BRANCH(self, t, args):
        c, a, b = self.args(t, args, 3)
        self.need_bool(c, t)
        self.need_effect(a, t)
        self.need_effect(b, t)
        return Val("effect")

    def op_REPEAT(self, t, args):
        c, a = self.args(t, args, 2)
        self.need_bool(c, t)
        self.need_effect(a, t)
        return Val("effect")

    def op_JMP(self, t, args):
        (a,) = self.args(t, args, 1)
        self.need_bv(a, t)
        return Val("effect")

    def op_WRITE_REG(self, t, args):
        if len(args) != 3:
            self.err("WRITE_REG takes 3 arguments", t)
        v = self.ev(args[2])
        self.need_bv(v, t)
        opname = show(args[1]).lstrip("&")
        w = self.op_widths.get(opname)
        if w is not None and v.sort[1] is not None and v.sort[1] != w:
            self.err(f"register operand {opname} is {w} bit wide but is written a {v.sort[1]} bit value", t)
        return Val("effect")

    def op_READ_REG(self, t, args):
        if len(args) != 3:
            self.err("READ_REG takes 3 arguments", t)
        opname = show(args[1]).lstrip("&")
        w = self.op_widths.get(opname)
        return Val(bv(w), z3.BitVec(f"reg_{opname}_{show(args[2])}", w) if isinstance(w, int) else None)

    def plugin(self, t, name, args):
        for a in args:
            self.ev(a)
        sort = PLUGIN_PURE.get(name)
        if sort is None:
            return Val(("ext", name))
        return Val(sort)


# plugin macros/functions with known result sorts (T-PLUGIN)
PLUGIN_PURE = {
    "ISA2REG": ("ext", "HexOp*"), "ALIAS2OP": ("ext", "HexOp"), "EXPLICIT2OP": ("ext", "HexOp"),
    "NREG2OP": ("ext", "HexOp"), "ISA2IMM": "cint", "HEX_STORE_SLOT_CANCELLED": "effect",
    "HEX_GET_NPC": "effect", "HEX_GET_INSN_RMODE": ("ext", "rmode"),
}


def sort_of_text(text_or_parts, **kw):
    ev = Evaluator(**kw)
    return ev.ev(parse_expr(text_or_parts)), ev
